(* C19: get_label_or_frag_id on packets built by the sender. No model code. *)
Require Import GSE.gen.Consts GSE.model.Base GSE.model.Types GSE.model.Header GSE.model.Ext GSE.model.Encap
  GSE.model.Memory GSE.model.Decap
  GSE.proofs.Tactics GSE.proofs.BaseLemmas GSE.proofs.HeaderLemmas GSE.proofs.EncapSpec
  GSE.proofs.DecapBase GSE.proofs.DecapSpec GSE.proofs.RoundTrip.
Open Scope N_scope.

(* what the peek function must answer for a start/complete packet carrying label l as written *)
Definition peek_label (l : label) : peek_ok + peek_err :=
  match l with LReUse => inr PErrLabelReuse | _ => inl (PLabel l) end.

Lemma peek_head h rest : h < 65536 -> 2 <= lenN (be16 h ++ rest) ->
  (do b0 <- idx (be16 h ++ rest) 0; do b1 <- idx (be16 h ++ rest) 1; read_hdr (rd16 [b0; b1])) = Ret (hdr_view h).
Proof.
  intros Hh _. unfold be16. cbn [app]. change (idx (h / 256 mod 256 :: h mod 256 :: rest) 0) with (Ret (h / 256 mod 256)).
  change (idx (h / 256 mod 256 :: h mod 256 :: rest) 1) with (Ret (h mod 256)). cbn [bind].
  fold (be16 h). rewrite rd16_be16 by assumption. now apply read_hdr_view.
Qed.

Lemma peek_start k l fid_tl pt rest glen : (k = KComplete /\ fid_tl = []) \/ (k = KFirst /\ lenN fid_tl = 3) ->
  label_wf l -> glen < 4096 ->
  peek (be16 (hdr_arith k (label_type l) glen) ++ fid_tl ++ be16 pt ++ label_bytes l ++ rest) = Ret (peek_label l).
Proof.
  intros Hk Hw Hg. unfold peek.
  set (buf := be16 (hdr_arith k (label_type l) glen) ++ fid_tl ++ be16 pt ++ label_bytes l ++ rest).
  assert (Lb : lenN buf = 2 + lenN fid_tl + 2 + lenN (label_bytes l) + lenN rest) by (subst buf; rewrite !lenN_app, !lenN_be16; lia).
  consts. destruct (N.ltb_spec (lenN buf) 2); [lia|].
  assert (Hh : hdr_arith k (label_type l) glen < 65536) by (apply hdr_arith_lt; lia).
  pose proof (peek_head _ (fid_tl ++ be16 pt ++ label_bytes l ++ rest) Hh ltac:(fold buf; lia)) as PH. fold buf in PH.
  destruct (idx buf 0) as [b0|]; [|discriminate PH]. cbn [bind] in PH |- *.
  destruct (idx buf 1) as [b1|]; [|discriminate PH]. cbn [bind] in PH |- *. rewrite PH. cbn [bind].
  rewrite hdr_view_arith by (auto; destruct Hk as [[-> _]|[-> _]]; intros [? _]; discriminate).
  assert (Hki : kind_eqb k KInter || kind_eqb k KEnd = false) by (destruct Hk as [[-> _]|[-> _]]; reflexivity).
  rewrite Hki. pose proof (lt_len_label l Hw) as Hll. pose proof (lt_len_le (label_type l)) as Hl6.
  destruct l as [lb|lb| |]; cbn [label_type ltype_eqb peek_label]; try reflexivity.
  - (* 6-byte label *)
    cbv zeta. change (ltype_len T6) with 6. cbn [label_bytes lt_len label_type] in *.
    destruct Hk as [[-> ->]|[-> Hf]]; cbn [kind_eqb].
    + destruct (N.ltb_spec (lenN buf) (2 + 2 + 6)); [lia|].
      subst buf. cbn [app]. replace (be16 (hdr_arith KComplete T6 glen) ++ be16 pt ++ lb ++ rest)
        with ((be16 (hdr_arith KComplete T6 glen) ++ be16 pt) ++ lb ++ rest) by (now rewrite <- !app_assoc).
      rewrite slice_mid by (rewrite ?lenN_app, ?lenN_be16; lia). cbn [bind]. rewrite label_new_ok by (cbn; lia). reflexivity.
    + destruct (N.ltb_spec (lenN buf) (2 + (2 + 1) + 2 + 6)); [lia|].
      subst buf. replace (be16 (hdr_arith KFirst T6 glen) ++ fid_tl ++ be16 pt ++ lb ++ rest)
        with ((be16 (hdr_arith KFirst T6 glen) ++ fid_tl ++ be16 pt) ++ lb ++ rest) by (now rewrite <- !app_assoc).
      rewrite slice_mid by (rewrite ?lenN_app, ?lenN_be16; lia). cbn [bind]. rewrite label_new_ok by (cbn; lia). reflexivity.
  - cbv zeta. change (ltype_len T3) with 3. cbn [label_bytes lt_len label_type] in *.
    destruct Hk as [[-> ->]|[-> Hf]]; cbn [kind_eqb].
    + destruct (N.ltb_spec (lenN buf) (2 + 2 + 3)); [lia|].
      subst buf. cbn [app]. replace (be16 (hdr_arith KComplete T3 glen) ++ be16 pt ++ lb ++ rest)
        with ((be16 (hdr_arith KComplete T3 glen) ++ be16 pt) ++ lb ++ rest) by (now rewrite <- !app_assoc).
      rewrite slice_mid by (rewrite ?lenN_app, ?lenN_be16; lia). cbn [bind]. rewrite label_new_ok by (cbn; lia). reflexivity.
    + destruct (N.ltb_spec (lenN buf) (2 + (2 + 1) + 2 + 3)); [lia|].
      subst buf. replace (be16 (hdr_arith KFirst T3 glen) ++ fid_tl ++ be16 pt ++ lb ++ rest)
        with ((be16 (hdr_arith KFirst T3 glen) ++ fid_tl ++ be16 pt) ++ lb ++ rest) by (now rewrite <- !app_assoc).
      rewrite slice_mid by (rewrite ?lenN_app, ?lenN_be16; lia). cbn [bind]. rewrite label_new_ok by (cbn; lia). reflexivity.
Qed.

Lemma peek_cont k fid rest glen : k = KInter \/ k = KEnd -> glen < 4096 -> 1 <= lenN rest ->
  peek (be16 (hdr_arith k TR glen) ++ [fid] ++ rest) = Ret (inl (PFragId fid)).
Proof.
  intros Hk Hg Hr. unfold peek.
  set (buf := be16 (hdr_arith k TR glen) ++ [fid] ++ rest).
  assert (Lb : lenN buf = 3 + lenN rest) by (subst buf; rewrite !lenN_app, !lenN_be16; change (lenN [fid]) with 1; lia).
  consts. destruct (N.ltb_spec (lenN buf) 2); [lia|].
  assert (Hh : hdr_arith k TR glen < 65536) by (apply hdr_arith_lt; lia).
  pose proof (peek_head _ ([fid] ++ rest) Hh ltac:(fold buf; lia)) as PH. fold buf in PH.
  destruct (idx buf 0) as [b0|]; [|discriminate PH]. cbn [bind] in PH |- *.
  destruct (idx buf 1) as [b1|]; [|discriminate PH]. cbn [bind] in PH |- *. rewrite PH. cbn [bind].
  rewrite hdr_view_arith by (auto; intros [_ ?]; discriminate).
  assert (Hki : kind_eqb k KInter || kind_eqb k KEnd = true) by (destruct Hk as [-> | ->]; reflexivity).
  rewrite Hki. change (ltype_len TR) with 0. destruct (N.ltb_spec (lenN buf) (2 + 2 + 0)); [lia|].
  subst buf. rewrite (idx_app_exact (be16 (hdr_arith k TR glen)) fid rest) by reflexivity. reflexivity.
Qed.
