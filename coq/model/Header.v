(* Fixed 16-bit header codec: generate_gse_header (src/gse_encap/mod.rs) and
   read_gse_header (src/gse_decap/mod.rs), with the masks and constants of the generated Consts.v. *)
Require Import GSE.gen.Consts GSE.model.Base GSE.model.Types.
Open Scope N_scope.

Definition kind_bits (k : kind) : N :=
  match k with KComplete => COMPLETE_PKT | KFirst => FIRST_PKT | KInter => INTERMEDIATE_PKT | KEnd => END_PKT end.
Definition ltype_bits (t : ltype) : N :=
  match t with T6 => LABEL_6_B | T3 => LABEL_3_B | TB => LABEL_BROADCAST | TR => LABEL_REUSE end.

(* gse_len is a u16 argument *)
Definition gen_hdr (k : kind) (t : ltype) (gse_len : N) : N :=
  N.lor (N.lor (N.land (kind_bits k) START_END_MASK) (N.land (ltype_bits t) LABEL_TYPE_MASK))
        (N.land gse_len GSE_LEN_MASK).

(* match arms are tried in source order; the `_ => unreachable!()` arm is a Panic *)
Definition read_hdr (w : N) : res (option (N * kind * ltype)) :=
  let se := N.land w START_END_MASK in
  do k <- (if se =? COMPLETE_PKT then Ret KComplete
           else if se =? FIRST_PKT then Ret KFirst
           else if se =? END_PKT then Ret KEnd
           else if se =? INTERMEDIATE_PKT then Ret KInter
           else Panic);
  let lt := N.land w LABEL_TYPE_MASK in
  do t <- (if lt =? LABEL_6_B then Ret T6
           else if lt =? LABEL_3_B then Ret T3
           else if lt =? LABEL_BROADCAST then Ret TB
           else if lt =? LABEL_REUSE then Ret TR
           else Panic);
  match k, t with
  | KInter, T6 => Ret None
  | _, _ => Ret (Some (N.land w GSE_LEN_MASK, k, t))
  end.
