(* C07 -- concurrent reassemblies are isolated under every interleaving. Pinned statements only. *)
Require Import GSE.model.Base GSE.model.Types GSE.model.Ext GSE.model.Encap GSE.model.Memory GSE.model.Decap
  GSE.proofs.Tactics GSE.proofs.BaseLemmas GSE.proofs.EncapSpec GSE.proofs.FragRun GSE.proofs.MemoryLemmas
  GSE.proofs.DecapBase GSE.proofs.DecapSpec GSE.proofs.DecapProps GSE.proofs.RoundTrip GSE.proofs.FragTrip
  GSE.proofs.Isolation.
Open Scope N_scope.
#[local] Opaque pkt_complete pkt_first pkt_end pkt_inter.

(* Frame property, for arbitrary bytes and any outcome (accepted or rejected): a reassembly in progress under frag
   id fid -- context c, buffer b -- is left exactly as it was by every buffer that is not an intermediate/end packet
   of fid and not a first fragment whose id maps to the same slot (`foreign`). This holds even when the other id
   shares the memory slot (intermediate/end packets of an aliasing id answer UndefinedId and touch nothing). *)
Theorem c07_frame : forall crc mgr s buf fid c b s' r, dstate_wf s -> bytes_ok buf ->
  slot_of (dmem s) fid = Some (c, b) -> c_fid c = fid ->
  foreign (max_frag_id (dmem s)) fid buf ->
  decap crc mgr s buf = Ret (s', r) ->
  slot_of (dmem s') fid = Some (c, b) /\ max_frag_id (dmem s') = max_frag_id (dmem s).
Proof.
  intros crc mgr s buf fid c b s' r Hwf Hb Hs Hf Hfor H. rewrite decap_spec in H by assumption. injection H as H.
  pose proof (decap_hl_frame crc mgr s buf fid c b Hwf Hs Hf Hfor) as F.
  pose proof (decap_hl_slots_count crc mgr s buf Hwf) as C. rewrite H in F, C. auto.
Qed.

(* Interleaving: the continuation train of a PDU (as produced by the sender after its first fragment was accepted:
   slot_inv) may be interleaved, in any order that preserves its own order, with any number of foreign buffers --
   complete packets, fragments of other ids (other trains: any number of them, each is foreign to the others when
   their ids do not share a slot), strays of aliasing ids, garbage. The PDU is delivered exactly once, at its own
   end fragment, intact and with its own metadata; every own packet before yields FragmentedPkt. *)
Theorem c07_interleave : forall crc mgr, (forall a b c d, crc a b c d < 4294967296) ->
  forall pdu c0, bytes_ok pdu -> c_fid c0 < 256 -> lenN pdu <= 65535 ->
  c_total c0 = lenN pdu + 2 + (if c_reuse c0 then 0 else lt_len (label_type (c_label c0))) ->
  let crcv := crc pdu (c_ptype c0) (c_total c0) (if c_reuse c0 then [] else label_bytes (c_label c0)) in
  let mdf := {| md_pdu_len := 0; md_ptype := c_ptype c0; md_label := c_label c0; md_exts := c_exts c0 |} in
  forall seq off ps pls, train_from pdu (c_fid c0) crcv off ps pls None -> owns seq = ps ->
  forall R, slot_inv R c0 pdu off -> others_ok (max_frag_id (dmem R)) (c_fid c0) seq ->
  exists R' b rs lastp, mixed_run crc mgr R seq = Ret (R', rs) /\
    ps = removelast ps ++ [lastp] /\
    rs = map (fun p => inl (DFragmented mdf, lenN p)) (removelast ps)
         ++ [inl (DCompleted b {| md_pdu_len := lenN pdu; md_ptype := c_ptype c0; md_label := c_label c0; md_exts := c_exts c0 |},
                  lenN lastp)] /\
    takeN (lenN pdu) (bdata b) = pdu /\ dstate_wf R'.
Proof. intros crc mgr Hc pdu c0. exact (train_interleaved crc mgr Hc pdu c0). Qed.

(* the invariant `slot_inv` is what an accepted first fragment establishes (also when it replaces an older
   reassembly in its slot: a new first fragment restarts only that slot), see c02_roundtrip / decap_first_step *)
Theorem c07_first_establishes : forall crc mgr, (forall a b c d, crc a b c d < 4294967296) ->
  forall R l fid pt pdu k0 R1 cur, label_wf l -> is_zero6 l = false -> 1536 <= pt < 65536 -> fid < 256 ->
  bytes_ok pdu -> k0 < lenN pdu -> lenN pdu + 2 + lenN (label_bytes l) <= 65535 -> 5 + lenN (label_bytes l) + k0 < 4096 ->
  dstate_wf R -> resolve_hl R (label_type l) l = inl (R1, cur) ->
  lenN pdu <= max_pdu_size (dmem R) -> max_frag_id (dmem R) <> 0 ->
  (slot_of (dmem R) fid <> None \/ storages (dmem R) <> []) ->
  let tl := lenN pdu + 2 + lenN (label_bytes l) in
  let c0 := {| c_label := cur; c_ptype := pt; c_fid := fid; c_total := tl; c_pdulen := 0;
               c_reuse := ltype_eqb (label_type l) TR; c_exts := [] |} in
  exists R', decap crc mgr R (pkt_first l fid tl pt (takeN k0 pdu)) =
      Ret (R', inl (DFragmented {| md_pdu_len := 0; md_ptype := pt; md_label := cur; md_exts := [] |}, 7 + lenN (label_bytes l) + k0))
    /\ slot_inv R' c0 pdu k0 /\ dlast R' = dlast R1.
Proof. intros crc mgr Hc. exact (decap_first_step crc mgr Hc). Qed.

Print Assumptions c07_frame.
Print Assumptions c07_interleave.
Print Assumptions c07_first_establishes.
