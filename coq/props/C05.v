(* C05 -- decap is total on arbitrary bytes: no panic, bounded and progressing consumption; the peek function
   is total. Pinned statements only. *)
Require Import GSE.model.Base GSE.model.Types GSE.model.Ext GSE.model.Memory GSE.model.Decap
  GSE.proofs.Tactics GSE.proofs.BaseLemmas GSE.proofs.MemoryLemmas GSE.proofs.DecapSpec GSE.proofs.DecapProps.
Open Scope N_scope.

(* the public API of a decapsulator over the bundled memory; any number of slots, including zero *)
Inductive dcall :=
  | DCDecap (buf : list byte) | DCProvision (b : sbuf) | DCNewPdu | DCReset.
Definition dcall_ok (c : dcall) : Prop := match c with DCDecap buf => bytes_ok buf | _ => True end.
Definition dcall_step crc mgr (s : dstate) (c : dcall) : res dstate :=
  match c with
  | DCDecap buf => do r <- decap crc mgr s buf; Ret (fst r)
  | DCProvision b => Ret (fst (dec_provision s b))
  | DCNewPdu => Ret (fst (dec_new_pdu s))
  | DCReset => Ret (dec_reset s)
  end.
Fixpoint dcall_run crc mgr (s : dstate) (cs : list dcall) : res dstate :=
  match cs with [] => Ret s | c :: t => do s' <- dcall_step crc mgr s c; dcall_run crc mgr s' t end.

(* one call: for every byte buffer and every well-formed state, decap returns Ok or Err (no Panic, the walker's
   fuel is never exhausted), leaves a well-formed state, reports a consumed length that never exceeds the buffer
   and, for a non-empty buffer, is at least min(2, buffer length) *)
Theorem c05_total : forall crc mgr s buf, dstate_wf s -> bytes_ok buf ->
  exists s' r, decap crc mgr s buf = Ret (s', r) /\ dstate_wf s' /\
    consumed r <= lenN buf /\ (0 < lenN buf -> N.min 2 (lenN buf) <= consumed r).
Proof.
  intros crc mgr s buf Hwf Hb. rewrite decap_spec by assumption.
  destruct (decap_hl crc mgr s buf) as [s' r] eqn:E. exists s', r. split; [reflexivity|].
  pose proof (decap_hl_wf crc mgr s buf Hwf Hb) as W. pose proof (decap_hl_consumed crc mgr s buf) as C.
  rewrite E in W, C. cbn [fst snd] in *. tauto.
Qed.

(* every state reachable through the public API is well formed, for unbounded histories of arbitrary calls *)
Theorem c05_reachable : forall crc mgr slots maxpdu cs, Forall dcall_ok cs ->
  exists s, dcall_run crc mgr (dec_new slots maxpdu) cs = Ret s /\ dstate_wf s.
Proof.
  intros crc mgr slots maxpdu cs.
  assert (H0 : dstate_wf (dec_new slots maxpdu)) by (apply dstate_wf_mem, mem_ok_new).
  revert H0. generalize (dec_new slots maxpdu).
  induction cs as [|c t IH]; intros s Hs Hok; cbn [dcall_run]; [eauto|].
  inversion Hok; subst.
  assert (exists s', dcall_step crc mgr s c = Ret s' /\ dstate_wf s') as (s' & -> & Hs').
  { destruct c as [buf|b| |]; cbn [dcall_step dcall_ok] in *.
    - destruct (c05_total crc mgr s buf Hs H1) as (s' & r & -> & W & _). cbn [bind fst]. eauto.
    - eexists; split; [reflexivity|]. unfold dec_provision. destruct (provision (dmem s) b) as [m r] eqn:E. cbn [fst].
      apply dstate_wf_mem. cbn [dmem set_dmem]. eapply mem_ok_provision; eauto.
    - eexists; split; [reflexivity|]. unfold dec_new_pdu, new_pdu.
      destruct (storages (dmem s)) as [|b t0] eqn:E; cbn [fst]; apply dstate_wf_mem; cbn [dmem set_dmem]; [exact Hs|].
      destruct Hs as ((Hf & Hc) & Hb & Hsl). rewrite E in Hb, Hc. inversion Hb; subst. rewrite lenN_cons in Hc.
      apply mem_ok_set_storages; [split; [split|split]; try assumption; rewrite E; [rewrite lenN_cons; lia|constructor; assumption]|lia|assumption].
    - eexists; split; [reflexivity|]. exact Hs. }
  cbn [bind]. now apply IH.
Qed.

(* the label / fragment-id peek function is total *)
Theorem c05_peek_total : forall buf, bytes_ok buf -> exists r, peek buf = Ret r.
Proof. exact peek_total. Qed.

Example c05_nonvacuous :
  dstate_wf (dec_new 2 16) /\
  decap (fun _ _ _ _ => 0) mgr_simple (dec_new 2 16) [0xC0; 0x00] = Ret (dec_new 2 16, inr (DGseLength, 2)).
Proof. split; [apply dstate_wf_mem, mem_ok_new|reflexivity]. Qed.

Print Assumptions c05_total.
Print Assumptions c05_reachable.
Print Assumptions c05_peek_total.
